"""Engine V, part 3: the AST rewrite applied to the real function text before it is executed symbolically.

What is rewritten (and nothing else; the extraction keeps every other statement as written):
  * comprehensions / generator expressions  ->  __vfw.comp(kind, iter_fns, cond_fn, elt_fn)
    (same evaluation order; for concrete iterables it simply runs the Python loop; for symbolic ones it
     evaluates the element expression once on a generic index, i.e. the canonical map-invariant);
  * `for` loops (and comprehensions) for which the sidecar contract registers an invariant, keyed by their
    ordinal in the function ("for#0", "comp#1" ...), are cut: assert invariant at 0; havoc the variables the
    body assigns / mutates; then fork: (a) one arbitrary iteration k -> assume invariant(k), run the real
    body, assert invariant(k+1), end path; (b) assume invariant(len) and continue after the loop.
  * `while` loops with a registered invariant ("while#0") are cut the same way (termination not proved).
Ghost assignments `name = <expr>` declared in the contract are inserted at function entry.
"""
from __future__ import annotations

import ast
import copy
from typing import Dict, List, Optional

MUTATORS = {"append", "extend", "insert", "pop", "remove", "sort", "reverse", "clear", "update", "add",
            "discard", "setdefault", "popitem", "__setitem__", "appendleft"}


def _name(id, ctx=None):
    return ast.Name(id=id, ctx=ctx or ast.Load())


def _call(fn: str, *args, **kw):
    f = ast.Attribute(value=_name("_vfw"), attr=fn, ctx=ast.Load())
    return ast.Call(func=f, args=list(args), keywords=[ast.keyword(arg=k, value=v) for k, v in kw.items()])


def _const(v):
    return ast.Constant(value=v)


def _parse_expr(s: str):
    return ast.parse(s, mode="eval").body


def assigned_targets(body: List[ast.stmt]):
    """(names, attribute-target source strings) possibly (re)bound or mutated in `body`"""
    names, attrs = [], []

    def add_target(t):
        if isinstance(t, ast.Name):
            if t.id not in names:
                names.append(t.id)
        elif isinstance(t, (ast.Tuple, ast.List)):
            for e in t.elts:
                add_target(e)
        elif isinstance(t, ast.Starred):
            add_target(t.value)
        elif isinstance(t, ast.Attribute):
            s = ast.unparse(t)
            if s not in attrs:
                attrs.append(s)
        elif isinstance(t, ast.Subscript):
            base = t.value
            while isinstance(base, ast.Subscript):      # data["k"][i] = .. / data["k"].append(..): the container that changes is the root one
                base = base.value
            if isinstance(base, ast.Name):
                if base.id not in names:
                    names.append(base.id)
            elif isinstance(base, ast.Attribute):
                s = ast.unparse(base)
                if s not in attrs:
                    attrs.append(s)

    class V(ast.NodeVisitor):
        def visit_Assign(self, n):
            for t in n.targets:
                add_target(t)
            self.generic_visit(n)

        def visit_AugAssign(self, n):
            add_target(n.target)
            self.generic_visit(n)

        def visit_AnnAssign(self, n):
            if n.value is not None:
                add_target(n.target)
            self.generic_visit(n)

        def visit_For(self, n):
            add_target(n.target)
            self.generic_visit(n)

        def visit_NamedExpr(self, n):
            add_target(n.target)
            self.generic_visit(n)

        def visit_With(self, n):
            for it in n.items:
                if it.optional_vars is not None:
                    add_target(it.optional_vars)
            self.generic_visit(n)

        def visit_Call(self, n):
            if isinstance(n.func, ast.Attribute) and n.func.attr in MUTATORS:
                add_target(ast.Subscript(value=n.func.value, slice=_const(0), ctx=ast.Store()))
            self.generic_visit(n)

        def visit_FunctionDef(self, n):
            pass

        def visit_Lambda(self, n):
            pass
    for s in body:
        V().visit(s)
    return names, attrs


class _BreakRewriter(ast.NodeTransformer):
    """inside a cut loop body: `break` -> set flag + break out of the one-shot wrapper; nested loops untouched"""

    def __init__(self, flag):
        self.flag = flag

    def visit_For(self, n):
        return n

    def visit_While(self, n):
        return n

    def visit_FunctionDef(self, n):
        return n

    def visit_Break(self, n):
        return [ast.Assign(targets=[_name(self.flag, ast.Store())], value=_const(True)), ast.Break()]


class _IfExpMerge(ast.NodeTransformer):
    """inside comprehension elements: `a if c else b` -> _vfw.ite_elt(c, lambda: a, lambda: b) (value-level merge for symbolic c)"""

    def visit_IfExp(self, n):
        self.generic_visit(n)
        z = lambda: ast.arguments(posonlyargs=[], args=[], kwonlyargs=[], kw_defaults=[], defaults=[])
        return _call("ite_elt", n.test, ast.Lambda(args=z(), body=n.body), ast.Lambda(args=z(), body=n.orelse))

    def visit_Lambda(self, n):
        return n

    def visit_ListComp(self, n):
        return n

    visit_GeneratorExp = visit_SetComp = visit_DictComp = visit_ListComp


class FunctionTransformer(ast.NodeTransformer):
    def __init__(self, loops: Optional[Dict[str, dict]] = None, ghost: Optional[Dict[str, str]] = None, fname=""):
        self.loops = loops or {}
        self.ghost = ghost or {}
        self.n_for = 0
        self.n_comp = 0
        self.n_while = 0
        self.fname = fname
        self.pre_stmts: List[List[ast.stmt]] = []
        self.seen = []
        self.uid = 0

    # ---------------------------------------------------------------- entry
    def transform(self, fn: ast.FunctionDef, keep_decorators: bool = False) -> ast.FunctionDef:
        fn = copy.deepcopy(fn)
        fn.body = self._block(fn.body)
        ghost = [ast.Assign(targets=[_name(k, ast.Store())], value=_parse_expr(v)) for k, v in self.ghost.items()]
        # keep a leading docstring first
        fn.body = ghost + fn.body
        if not keep_decorators:
            fn.decorator_list = [d for d in fn.decorator_list
                                 if ast.unparse(d) in ("staticmethod", "classmethod", "property")]
        ast.fix_missing_locations(fn)
        return fn

    def _block(self, stmts):
        out = []
        for s in stmts:
            self.pre_stmts.append([])
            r = self.visit(s)
            pre = self.pre_stmts.pop()
            out.extend(pre)
            if isinstance(r, list):
                out.extend(r)
            elif r is not None:
                out.append(r)
        return out or [ast.Pass()]

    def generic_visit(self, node):
        # statement lists are handled by _block so that hoisted defs land right before their statement
        for field, old in ast.iter_fields(node):
            if isinstance(old, list):
                if old and all(isinstance(x, ast.stmt) for x in old):
                    setattr(node, field, self._block(old))
                else:
                    new = []
                    for v in old:
                        if isinstance(v, ast.AST):
                            v = self.visit(v)
                            if v is None:
                                continue
                            if isinstance(v, list):
                                new.extend(v)
                                continue
                        new.append(v)
                    old[:] = new
            elif isinstance(old, ast.AST):
                new = self.visit(old)
                if new is None:
                    delattr(node, field)
                else:
                    setattr(node, field, new)
        return node

    def visit_FunctionDef(self, n):
        return n  # nested defs are left as written (their loops are not cut)

    def visit_Assign(self, n):
        """`a, *rest, z = value` (one starred target): the value is unpacked by `_vfw.unpack_star`, which also handles symbolic sequences
        (first / last elements by index, the starred part as the slice in between; too few elements raise ValueError as in Python)"""
        n.value = self.visit(n.value)
        if len(n.targets) == 1 and isinstance(n.targets[0], (ast.Tuple, ast.List)):
            elts = n.targets[0].elts
            stars = [i for i, e in enumerate(elts) if isinstance(e, ast.Starred)]
            if len(stars) == 1:
                k = stars[0]
                plain = ast.Tuple(elts=[e.value if isinstance(e, ast.Starred) else e for e in elts], ctx=ast.Store())
                return ast.Assign(targets=[plain], value=_call("unpack_star", n.value, _const(k), _const(len(elts) - k - 1)))
        n.targets = [self.visit(t) for t in n.targets]
        return n

    def visit_AugAssign(self, n):
        """`name += value`: kept in place for Python lists extended by Python iterables; a list extended by a SYMBOLIC sequence becomes the
        concatenation (the local name is rebound - sound as long as the list is not aliased, which Engine F's provenance covers for locals)"""
        n.value = self.visit(n.value)
        if isinstance(n.op, ast.Add) and isinstance(n.target, ast.Name):
            return ast.Assign(targets=[_name(n.target.id, ast.Store())], value=_call("iadd", _name(n.target.id), n.value))
        n.target = self.visit(n.target)
        return n

    def visit_Lambda(self, n):
        return n

    def visit_Call(self, n):
        self.generic_visit(n)
        if isinstance(n.func, ast.Name) and n.func.id == "zip" and len(n.args) == 1 and isinstance(n.args[0], ast.Starred) \
                and not n.keywords:
            return _call("zip_star", n.args[0].value)
        stars = [i for i, a in enumerate(n.args) if isinstance(a, ast.Starred)]
        if len(stars) == 1 and not any(k.arg is None for k in n.keywords):
            i = stars[0]
            return _call("star_call", n.func, ast.List(elts=n.args[:i], ctx=ast.Load()), n.args[i].value,
                         ast.List(elts=n.args[i + 1:], ctx=ast.Load()),
                         ast.Dict(keys=[_const(k.arg) for k in n.keywords], values=[k.value for k in n.keywords]))
        return n

    def _display(self, n, kind):
        self.generic_visit(n)
        if not isinstance(n.ctx, ast.Load) or not any(isinstance(e, ast.Starred) for e in n.elts):
            return n
        parts = [ast.Tuple(elts=[_const("s" if isinstance(e, ast.Starred) else "v"), e.value if isinstance(e, ast.Starred) else e], ctx=ast.Load())
                 for e in n.elts]
        return _call("display", _const(kind), ast.List(elts=parts, ctx=ast.Load()))

    def visit_List(self, n):
        return self._display(n, "list")

    def visit_Tuple(self, n):
        return self._display(n, "tuple")

    # ---------------------------------------------------------------- comprehensions
    def _comp(self, node, kind, elt):
        key = f"comp#{self.n_comp}"
        self.n_comp += 1
        self.seen.append(key)
        lc = self.loops.get(key)
        if lc is not None:
            return self._comp_as_loop(node, kind, elt, key, lc)
        self.uid += 1
        u = self.uid
        gens = node.generators
        if len(gens) > 2 or any(g.is_async for g in gens):
            return node
        # iter functions: iter_0() ; iter_1(t0)
        targets = [g.target for g in gens]
        defs = []
        argn = [f"__t{u}_{i}" for i in range(len(gens))]

        def unpack(k):
            return [ast.Assign(targets=[copy.deepcopy(targets[i])], value=_name(argn[i])) for i in range(k)]

        def mkdef(name, nargs, value):
            value = _IfExpMerge().visit(copy.deepcopy(value))
            value = self.visit(value)  # nested comprehensions inside
            body = unpack(nargs) + [ast.Return(value=value)]
            return ast.FunctionDef(name=name, args=ast.arguments(posonlyargs=[], args=[ast.arg(arg=a) for a in argn[:nargs]],
                                                                 kwonlyargs=[], kw_defaults=[], defaults=[]),
                                   body=body, decorator_list=[], type_params=[])
        first_iter = self.visit(gens[0].iter)
        iter_fns = []
        for i in range(1, len(gens)):
            nm = f"__c{u}_iter{i}"
            defs.append(mkdef(nm, i, gens[i].iter))
            iter_fns.append(_name(nm))
        conds = [c for g in gens for c in g.ifs]
        cond_fn = _const(None)
        if conds:
            if any(g.ifs for g in gens[:-1]):
                return node  # filters on outer generators of a nested comprehension: leave native
            nm = f"__c{u}_cond"
            test = conds[0] if len(conds) == 1 else ast.BoolOp(op=ast.And(), values=conds)
            defs.append(mkdef(nm, len(gens), test))
            cond_fn = _name(nm)
        nm = f"__c{u}_elt"
        defs.append(mkdef(nm, len(gens), elt))
        self.pre_stmts[-1].extend(defs)
        return _call("comp", _const(kind), first_iter, ast.List(elts=iter_fns, ctx=ast.Load()), cond_fn, _name(nm))

    def visit_ListComp(self, n):
        return self._comp(n, "list", n.elt)

    def visit_GeneratorExp(self, n):
        return self._comp(n, "gen", n.elt)

    def visit_SetComp(self, n):
        return self._comp(n, "set", n.elt)

    def visit_DictComp(self, n):
        return self._comp(n, "dict", ast.Tuple(elts=[n.key, n.value], ctx=ast.Load()))

    def _comp_as_loop(self, node, kind, elt, key, lc):
        if kind != "list" or len(node.generators) != 1 or node.generators[0].ifs:
            raise NotImplementedError("only single-generator, unfiltered list comprehensions can carry an invariant")
        self.uid += 1
        res = lc.get("result", f"__r{self.uid}")
        g = node.generators[0]
        body = [ast.Expr(value=ast.Call(func=ast.Attribute(value=_name(res), attr="append", ctx=ast.Load()),
                                        args=[elt], keywords=[]))]
        loop = ast.For(target=g.target, iter=g.iter, body=body, orelse=[], type_comment=None)
        init = ast.Assign(targets=[_name(res, ast.Store())], value=_call("new_list"))
        lc = dict(lc)
        lc.setdefault("types", {})
        stmts = [init] + self._cut_for(loop, key, lc)
        self.pre_stmts[-1].extend(stmts)
        return _name(res)

    # ---------------------------------------------------------------- loops
    def visit_For(self, n):
        key = f"for#{self.n_for}"
        self.n_for += 1
        self.seen.append(key)
        lc = self.loops.get(key)
        if lc is None:
            n.iter = self.visit(n.iter)
            n.body = self._block(n.body)
            n.orelse = self._block(n.orelse) if n.orelse else []
            return n
        return self._cut_for(n, key, lc)

    def _havocs(self, key, body, lc, exclude=()):
        names, attrs = assigned_targets(body)
        for extra in lc.get("modifies", []):
            if "." in extra:
                if extra not in attrs:
                    attrs.append(extra)
            elif extra not in names:
                names.append(extra)
        out = []
        for nm in names:
            if nm in exclude or nm.startswith("__"):
                continue
            out.append(ast.Assign(
                targets=[_name(nm, ast.Store())],
                value=_call("havoc", _const(key), _const(nm),
                            ast.Call(func=ast.Attribute(value=ast.Call(func=_name("locals"), args=[], keywords=[]),
                                                        attr="get", ctx=ast.Load()),
                                     args=[_const(nm), ast.Attribute(value=_name("_vfw"), attr="UNBOUND", ctx=ast.Load())],
                                     keywords=[]))))
        for a in attrs:
            tgt = _parse_expr(a)
            tgt.ctx = ast.Store()
            out.append(ast.Assign(targets=[tgt], value=_call("havoc", _const(key), _const(a), _parse_expr(a))))
        return out

    def _inv_lambda(self, lc, kexpr):
        inv = lc["invariant"]
        e = contract_expr(inv)
        return ast.Lambda(args=ast.arguments(posonlyargs=[], args=[ast.arg(arg="k")], kwonlyargs=[], kw_defaults=[], defaults=[]),
                          body=e)

    def _cut_for(self, n: ast.For, key, lc):
        self.uid += 1
        u = self.uid
        it, kk, brk = f"__it{u}", f"__k{u}", f"__brk{u}"
        target_names, _ = assigned_targets([ast.Assign(targets=[n.target], value=_const(0))])
        body = self._block(n.body)
        if n.orelse:
            raise NotImplementedError("for/else with a loop contract")
        havocs = self._havocs(key, n.body, lc, exclude=target_names)
        inv = lambda: self._inv_lambda(lc, None)
        once_body = [_BreakRewriter(brk).visit(s) for s in body]
        flat = []
        for s in once_body:
            flat.extend(s if isinstance(s, list) else [s])
        stmts = [
            ast.Assign(targets=[_name(it, ast.Store())], value=_call("loop_iter", self.visit(n.iter))),
            ast.Expr(value=_call("loop_entry", _const(key), _name(it), inv())),
        ] + havocs + [
            ast.If(
                test=_call("loop_choose", _const(key)),
                body=[
                    ast.Assign(targets=[_name(kk, ast.Store())], value=_call("loop_k", _const(key), _name(it), inv())),
                    ast.Assign(targets=[n.target], value=ast.Call(func=ast.Attribute(value=_name(it), attr="get", ctx=ast.Load()),
                                                                    args=[_name(kk)], keywords=[])),
                    ast.Assign(targets=[_name(brk, ast.Store())], value=_const(False)),
                    ast.For(target=_name(f"__once{u}", ast.Store()), iter=ast.Tuple(elts=[_const(0)], ctx=ast.Load()),
                            body=flat, orelse=[], type_comment=None),
                    ast.If(test=ast.UnaryOp(op=ast.Not(), operand=_name(brk)),
                           body=[ast.Expr(value=_call("loop_step", _const(key), _name(kk), inv()))], orelse=[]),
                ],
                orelse=[ast.Expr(value=_call("loop_exit", _const(key), _name(it), inv()))],
            )
        ]
        return stmts

    def visit_While(self, n):
        key = f"while#{self.n_while}"
        self.n_while += 1
        self.seen.append(key)
        lc = self.loops.get(key)
        if lc is None:
            n.test = self.visit(n.test)
            n.body = self._block(n.body)
            return n
        self.uid += 1
        u = self.uid
        brk = f"__brk{u}"
        body = self._block(n.body)
        havocs = self._havocs(key, n.body + [ast.Expr(value=n.test)], lc)
        inv0 = ast.Lambda(args=ast.arguments(posonlyargs=[], args=[], kwonlyargs=[], kw_defaults=[], defaults=[]),
                          body=contract_expr(lc["invariant"]))
        flat = []
        for s in [_BreakRewriter(brk).visit(s) for s in body]:
            flat.extend(s if isinstance(s, list) else [s])
        test = self.visit(copy.deepcopy(n.test))
        return [
            ast.Expr(value=_call("while_entry", _const(key), inv0)),
        ] + havocs + [
            ast.Expr(value=_call("while_assume", _const(key), copy.deepcopy(inv0))),
            ast.If(test=test,
                   body=[ast.Assign(targets=[_name(brk, ast.Store())], value=_const(False)),
                         ast.For(target=_name(f"__once{u}", ast.Store()), iter=ast.Tuple(elts=[_const(0)], ctx=ast.Load()),
                                 body=flat, orelse=[], type_comment=None),
                         ast.If(test=ast.UnaryOp(op=ast.Not(), operand=_name(brk)),
                                body=[ast.Expr(value=_call("while_step", _const(key), copy.deepcopy(inv0)))], orelse=[])],
                   orelse=[]),
        ]


# --------------------------------------------------------------------------------------------
# contract expressions: strings in Python syntax, evaluated without forking

class _ContractExpr(ast.NodeTransformer):
    """and/or/not/if-else/chained comparisons/all()/any() -> formula builders of __vfw (no path forks)."""

    def visit_BoolOp(self, n):
        self.generic_visit(n)
        fn = "And" if isinstance(n.op, ast.And) else "Or"
        lam = [ast.Lambda(args=ast.arguments(posonlyargs=[], args=[], kwonlyargs=[], kw_defaults=[], defaults=[]), body=v)
               for v in n.values]
        return _call(fn, *lam)

    def visit_UnaryOp(self, n):
        self.generic_visit(n)
        if isinstance(n.op, ast.Not):
            return _call("Not", n.operand)
        return n

    def visit_IfExp(self, n):
        self.generic_visit(n)
        z = ast.arguments(posonlyargs=[], args=[], kwonlyargs=[], kw_defaults=[], defaults=[])
        return _call("Ite", n.test, ast.Lambda(args=z, body=n.body), ast.Lambda(args=copy.deepcopy(z), body=n.orelse))

    def visit_Subscript(self, n):
        self.generic_visit(n)
        if isinstance(n.slice, ast.Slice) or not isinstance(n.ctx, ast.Load):
            return n
        return _call("Idx", n.value, n.slice)

    def visit_Compare(self, n):
        self.generic_visit(n)
        parts = []
        left = n.left
        for op, right in zip(n.ops, n.comparators):
            opn = type(op).__name__
            parts.append(_call("Cmp", _const(opn), left, right))
            left = right
        if len(parts) == 1:
            return parts[0]
        z = lambda: ast.arguments(posonlyargs=[], args=[], kwonlyargs=[], kw_defaults=[], defaults=[])
        return _call("And", *[ast.Lambda(args=z(), body=p) for p in parts])

    def visit_Call(self, n):
        if isinstance(n.func, ast.Name) and n.func.id in ("all", "any") and len(n.args) == 1 \
                and isinstance(n.args[0], ast.GeneratorExp):
            g = n.args[0]
            if len(g.generators) <= 2:
                body = self.visit(g.elt)
                # nested generators become nested quantifiers
                for gen in reversed(g.generators):
                    cond = None
                    if gen.ifs:
                        cond = self.visit(gen.ifs[0] if len(gen.ifs) == 1 else ast.BoolOp(op=ast.And(), values=gen.ifs))
                    args = ast.arguments(posonlyargs=[], args=[ast.arg(arg="__q")], kwonlyargs=[], kw_defaults=[], defaults=[])
                    unpack = ast.NamedExpr(target=_name("__q_", ast.Store()), value=_name("__q"))
                    # lambda __q: (lambda <target>: body)(*unpack)
                    inner_args = _target_args(gen.target)
                    inner = ast.Lambda(args=inner_args, body=body if cond is None else (
                        _call("Implies", cond, body) if n.func.id == "all" else _call("And", _thunk(cond), _thunk(body))))
                    call_inner = ast.Call(func=inner, args=[ast.Starred(value=_call("unpack", _name("__q"), _const(_target_shape(gen.target))), ctx=ast.Load())], keywords=[])
                    lam = ast.Lambda(args=args, body=call_inner)
                    body = _call("Forall" if n.func.id == "all" else "Exists", self.visit(gen.iter), lam)
                return body
        self.generic_visit(n)
        return n


def _thunk(e):
    return ast.Lambda(args=ast.arguments(posonlyargs=[], args=[], kwonlyargs=[], kw_defaults=[], defaults=[]), body=e)


def _target_shape(t):
    if isinstance(t, ast.Name):
        return 0
    return [_target_shape(e) for e in t.elts]


def _target_args(t):
    names = []

    def rec(x):
        if isinstance(x, ast.Name):
            names.append(x.id)
        else:
            for e in x.elts:
                rec(e)
    rec(t)
    return ast.arguments(posonlyargs=[], args=[ast.arg(arg=a) for a in names], kwonlyargs=[], kw_defaults=[], defaults=[])


def contract_expr(s: str) -> ast.expr:
    e = ast.parse(s.strip(), mode="eval").body
    e = _ContractExpr().visit(e)
    ast.fix_missing_locations(e)
    return e


def compile_contract_expr(s: str, argnames: List[str]):
    """-> code object of `lambda <argnames>: <formula>`; evaluate with {'__vfw': runtime helpers, spec functions...}"""
    e = contract_expr(s)
    lam = ast.Lambda(args=ast.arguments(posonlyargs=[], args=[ast.arg(arg=a) for a in argnames], kwonlyargs=[],
                                        kw_defaults=[], defaults=[]), body=e)
    m = ast.Expression(body=lam)
    ast.fix_missing_locations(m)
    return compile(m, f"<contract: {s[:60]}>", "eval")
