"""Shadow-load the gate layer of /repo (_matrices, _gates, _builtin_gates) over Engine M.

Everything here is re-created from the current source text on every call:
  * `_matrices.py` runs with sympy/np bound to the exact shims and numeric literals wrapped;
  * `_gates.py` runs with sympy/np bound to the shims (ControlledGate.matrix, Dagger.matrix,
    Power.matrix, CustomGateMatrixFactory.__call__ ... are the real text);
  * `_builtin_gates.py` runs against those two shadows, so the gate table (name, factory,
    num_qubits, is_hermitian) is the real one.
"""
from __future__ import annotations

import ast
import inspect
import types

from . import src, trig

MAT = "orquestra.quantum.circuits._matrices"
GATES = "orquestra.quantum.circuits._gates"
BUILTIN = "orquestra.quantum.circuits._builtin_gates"


def _get_free_symbols(params):
    syms = set()
    for p in params:
        if isinstance(p, trig.Poly):
            syms |= p.free_symbols
    return sorted(syms, key=str)


def _sub_symbols(param, symbols_map):
    if isinstance(param, trig.Poly):
        return param.subs(symbols_map)
    return param


def load(extra_gate_overrides=None):
    def _float(x):
        # floats are treated as the reals they denote: float(<exact real>) is the identity
        if isinstance(x, trig.Poly):
            if any(im != 0 for _, im in x.t.values()):
                raise TypeError("float() of a complex value")
            return x
        return float(x)
    class _FloatMeta(type):
        def __instancecheck__(cls, x):
            return isinstance(x, float)

    class _Float(metaclass=_FloatMeta):   # float(...) on exact values is the identity; isinstance(x, float) is unchanged
        def __new__(cls, x=0.0):
            return _float(x)
    mat = src.shadow_load(MAT, {"sympy": trig.SYMPY, "np": trig.NUMPY, "__lit__": trig.lit, "float": _Float},
                          transform=trig.wrap_literals)
    ov = {"sympy": trig.SYMPY, "np": trig.NUMPY, "get_free_symbols": _get_free_symbols, "sub_symbols": _sub_symbols}
    ov.update(extra_gate_overrides or {})
    gates = src.shadow_load(GATES, ov)
    gates_mod = types.SimpleNamespace(**{k: v for k, v in gates.__ns__.items() if not k.startswith("__")})
    mat_mod = types.SimpleNamespace(**{k: v for k, v in mat.__ns__.items() if not k.startswith("__")})
    builtin = src.shadow_load(BUILTIN, {"_gates": gates_mod, "_matrices": mat_mod})
    return mat, gates, builtin


def gate_table(builtin, gates):
    """name -> (object, n_params, param_names) for every gate the real table defines."""
    out = {}
    tree = src.module_ast(BUILTIN)
    names = []
    for node in tree.body:
        if isinstance(node, ast.Assign) and len(node.targets) == 1 and isinstance(node.targets[0], ast.Name):
            v = node.value
            if isinstance(v, ast.Call):
                fn = ast.unparse(v.func)
                if fn in ("_gates.MatrixFactoryGate", "make_parametric_gate_prototype"):
                    names.append(node.targets[0].id)
    for n in names:
        obj = getattr(builtin, n)
        if isinstance(obj, gates.MatrixFactoryGate):
            out[n] = (obj, 0, ())
        else:
            # a prototype: instantiate once to read the factory, then its signature
            probe = obj()
            sig = inspect.signature(probe.matrix_factory)
            pn = tuple(sig.parameters)
            out[n] = (obj, len(pn), pn)
    return out


def instantiate(entry, suffix=""):
    obj, k, pn = entry
    if k == 0:
        return obj, ()
    ps = tuple(trig.Poly.var(p.strip("_") + suffix) for p in pn)
    return obj(*ps), ps
