"""Lean 4 / Mathlib twins of the trusted rewriting rules and prelude lemmas (lean/Prelude.lean), re-checked in the thorough tier."""
from __future__ import annotations

import os
import shutil
import subprocess
import time

from . import core
from .core import Ob

MATHLIB = "/opt/veriftools/mathlib4"


def prelude_ob(prop: str, which: str) -> Ob:
    def run():
        t0 = time.time()
        f = os.path.join(core.ROOT, "lean", "Prelude.lean")
        if not (shutil.which("lake") and os.path.isdir(MATHLIB)):
            return core.undecided("lean", "lean / mathlib not available")
        try:
            p = subprocess.run(["lake", "env", "lean", f], cwd=MATHLIB, capture_output=True, text=True, timeout=1500)
        except subprocess.TimeoutExpired:
            return core.undecided("lean", "timeout")
        out = (p.stdout + p.stderr).strip()
        n = sum(1 for l in open(f) if l.startswith("theorem "))
        if p.returncode == 0 and "error" not in out:
            return core.discharged("lean4+mathlib", time.time() - t0, queries=n, sample={"theorems": n, "file": "lean/Prelude.lean"})
        return core.refuted("lean4+mathlib", out[-1500:])
    return Ob(f"{prop}.lean.prelude", "proof", ["lean/Prelude.lean"], run,
              f"Lean 4 / Mathlib re-check of the mathematical statements behind the trusted rules used here ({which})", timeout=1600, tier="thorough")
