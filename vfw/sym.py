"""Engine V, part 1: symbolic values and the path context.

The real function text of /repo is *executed by CPython* (vfw/src.shadow_load) with
  * arguments that are symbolic values (z3 terms behind Python operator overloading),
  * a handful of builtins (len, range, sum, zip, ...) rebound to symbolic-aware versions,
  * loops / comprehensions that have a sidecar invariant cut by an AST rewrite (vfw/xform.py),
  * callees replaced by their contracts (vfw/vcontract.py).
A branch on a symbolic condition forks the path; paths are enumerated by deterministic
re-execution with a decision prefix.  Every obligation is `path condition => formula`, decided by z3.

Python semantics assumed by this encoding (repeated in every evidence file that uses Engine V):
  int is mathematical Int (exact: Python ints are unbounded); // and % are floor division/modulo;
  float is treated as a mathematical Real (rounding NOT modelled; float literals denote their exact
  binary value); bool/int coercions as in Python; sequences are (length, index -> element) with the
  algebra repeat/concat/slice/reverse/zip/enumerate/range handled structurally by the generator;
  opaque objects are elements of an uninterpreted sort whose attributes are uninterpreted functions
  (reading the same attribute twice gives the same value: attributes of *symbolic* objects are
  immutable; mutable state lives in real Python objects of the shadow module).
"""
from __future__ import annotations

import time
from fractions import Fraction
from typing import Any, Callable, List, Optional

import z3

Obj = z3.DeclareSort("Obj")
PY_NONE = z3.Const("None", Obj)   # Python's None when it is stored where objects are stored


class Unsupported(Exception):
    """The code left the fragment Engine V understands: the obligation is UNDECIDED, never a violation."""


class PathEnd(Exception):
    """The current path ends here (infeasible, or an inductive step that has been checked)."""


# ------------------------------------------------------------------------------------------
# path context

_CUR: Optional["Ctx"] = None


def cur() -> "Ctx":
    if _CUR is None:
        raise Unsupported("symbolic operation outside a path context")
    return _CUR


def set_cur(c):
    global _CUR
    _CUR = c


class Ctx:
    def __init__(self, prefix=(), timeout_ms=20000, feas_ms=3000):
        self.prefix = list(prefix)
        self.taken: List[Any] = []
        self.alts: List[List[Any]] = []
        self.pc: List[Any] = []
        self.n = 0
        self.obls: List[dict] = []
        self.nofork = 0
        self.fresh_log: Optional[list] = None
        self.timeout_ms = timeout_ms
        self.feas_ms = feas_ms
        self.inputs: dict = {}  # name -> symbolic value, for counterexample extraction
        self.solver_s = 0.0
        self.queries = 0
        self.trace: List[str] = []
        self.nocheck = 0
        self.axioms_done = set()
        self.axioms: List[Any] = []
        self.lengths: List[Any] = []     # length terms of symbolic sequences (for reversed-index trigger hints)

    # -- symbols
    def fresh(self, name, sort):
        self.n += 1
        c = z3.Const(f"{name}!{self.n}", sort)
        if sort == z3.IntSort():
            self.axioms.append(TR(c))
        if self.fresh_log is not None:
            self.fresh_log.append(c)
        return c

    # -- assumptions
    def assume(self, f):
        f = fml(f)
        if z3.is_true(f):
            return
        if z3.is_false(f):
            raise PathEnd("assumed false")
        self.pc.append(f)

    def _check(self, extra, ms):
        s = z3.Solver()
        s.set("timeout", ms)
        for p in self.axioms:
            s.add(p)
        for p in self.pc:
            s.add(p)
        for e in extra:
            s.add(e)
        t0 = time.time()
        quick = ms > 4000
        if quick:
            s.set("timeout", 2500)
        r = s.check()
        self.queries += 1
        if r == z3.unknown and quick:
            # portfolio: drop quantified facts and trigger markers (sound for `unsat`: fewer assumptions) so that
            # z3's arithmetic-only strategy applies to the quantifier-free core of the query
            core_ = [p for p in list(self.pc) + list(extra) if not _has_quantifier(p) and not _mentions_decl(p, "TR")]
            s2 = z3.Solver()
            s2.set("timeout", ms)
            for p in core_:
                s2.add(p)
            r2 = s2.check()
            self.queries += 1
            if r2 == z3.unsat:
                r, s = r2, s2
            else:
                s.set("timeout", ms)
                r = s.check()
                self.queries += 1
        self.solver_s += time.time() - t0
        return r, s

    # -- forks
    def decide(self, cond) -> bool:
        cond = z3.simplify(fml(cond))
        if z3.is_true(cond):
            return True
        if z3.is_false(cond):
            return False
        i = len(self.taken)
        if i < len(self.prefix):
            b = self.prefix[i]
        else:
            if self.nofork:
                raise Unsupported("fork on a symbolic condition inside a generalised (per-element) scope")
            rt, _ = self._check([cond], self.feas_ms)
            rf, _ = self._check([z3.Not(cond)], self.feas_ms)
            if rt == z3.unsat and rf == z3.unsat:
                raise PathEnd("infeasible path")
            if rt == z3.unsat:
                b = False
            elif rf == z3.unsat:
                b = True
            else:
                b = True
                self.alts.append(self.taken + [False])
        self.taken.append(b)
        self.pc.append(cond if b else z3.Not(cond))
        return b

    def choose(self, n: int, label="") -> int:
        """non-deterministic choice among n alternatives (loop cut: body / exit, callee raising ...)"""
        i = len(self.taken)
        if i < len(self.prefix):
            c = self.prefix[i]
        else:
            if self.nofork:
                raise Unsupported("choice inside a generalised scope")
            c = 0
            for k in range(1, n):
                self.alts.append(self.taken + [k])
        self.taken.append(c)
        return c

    # -- obligations
    def check(self, name, formula, detail="", split=True):
        if self.nocheck:
            return True
        f = fml(formula)
        if z3.is_and(f) and f.num_args() > 1 and split:
            ok = True
            for i in range(f.num_args()):
                ok = self.check(f"{name}#{i + 1}", f.arg(i), detail, split=False) and ok
            return ok
        t0 = time.time()
        if z3.is_true(z3.simplify(f)):
            self.obls.append({"name": name, "status": "discharged", "backend": "simplifier", "s": 0.0, "detail": detail})
            return True
        parts = []
        strip_goal(f, [], parts)
        if len(parts) > 1 or (parts and parts[0][0]):
            allok = True
            worst = None
            for hyps, g in parts:
                r, s = self._check(list(hyps) + [z3.Not(g)], self.timeout_ms)
                if r != z3.unsat:
                    allok = False
                    worst = (r, s, g)
                    if r == z3.sat:
                        break
            if not allok and worst[0] == z3.unknown:
                # portfolio: nonlinear integer queries are sensitive to their shape - retry the unsplit goal
                r2, s2 = self._check([z3.Not(f)], self.timeout_ms)
                if r2 == z3.unsat:
                    allok = True
                elif r2 == z3.sat:
                    worst = (r2, s2, f)
            dt = time.time() - t0
            if allok:
                self.obls.append({"name": name, "status": "discharged", "backend": "z3", "s": dt, "detail": detail})
                return True
            r, s, g = worst
            if r == z3.sat:
                self.obls.append({"name": name, "status": "refuted", "backend": "z3", "s": dt, "detail": detail,
                                  "model": self.model_inputs(s.model()), "formula": str(z3.simplify(g))[:600]})
            else:
                cand = None
                for hyps, gg in parts:
                    cand = cand or self.candidate(list(hyps) + [z3.Not(gg)])
                self.obls.append({"name": name, "status": "undecided", "backend": "z3", "s": dt, "candidate": cand,
                                  "detail": detail + " reason=" + s.reason_unknown() + " goal=" + str(g)[:300]})
            return False
        r, s = self._check([z3.Not(f)], self.timeout_ms)
        dt = time.time() - t0
        if r == z3.unsat:
            self.obls.append({"name": name, "status": "discharged", "backend": "z3", "s": dt, "detail": detail})
            return True
        if r == z3.sat:
            m = s.model()
            self.obls.append({"name": name, "status": "refuted", "backend": "z3", "s": dt, "detail": detail,
                              "model": self.model_inputs(m), "formula": str(z3.simplify(f))[:600]})
            return False
        self.obls.append({"name": name, "status": "undecided", "backend": "z3", "s": dt, "candidate": self.candidate([z3.Not(f)]),
                          "detail": detail + " reason=" + s.reason_unknown()})
        return False

    def candidate(self, negated_goal_parts):
        """a CANDIDATE counter-model for an obligation z3 could not decide: the quantifier-free part of the path condition together with
        the negated goal is asked for a model (fewer assumptions than the real query, so the model may be spurious - it is only ever used
        as an input to a native replay of the real code, never as a verdict)"""
        try:
            s2 = z3.Solver()
            s2.set("timeout", 3000)
            for p in list(self.pc) + list(negated_goal_parts):
                if not _has_quantifier(p) and not _mentions_decl(p, "TR"):
                    s2.add(p)
            if s2.check() == z3.sat:
                return self.model_inputs(s2.model())
        except Exception:
            pass
        return None

    def feasible(self):
        r, _ = self._check([], self.feas_ms)
        return r != z3.unsat

    def model_inputs(self, m):
        out = {}
        for k, v in self.inputs.items():
            try:
                out[k] = concretize(v, m)
            except Exception as e:  # pragma: no cover
                out[k] = f"<{type(e).__name__}: {e}>"
        return out


# ------------------------------------------------------------------------------------------
# quantifiers with explicit triggers

TR = z3.Function("TR", z3.IntSort(), z3.BoolSort())   # trigger marker: TR(t) is asserted for every index term of interest


def _select_patterns(body, j):
    out, seen = [], set()

    def rec(e):
        if not z3.is_app(e) or e.get_id() in seen:
            return
        seen.add(e.get_id())
        if z3.is_select(e) and e.arg(1).eq(j) and not _mentions(e.arg(0), j):
            out.append(e)
        for ch in e.children():
            rec(ch)
    rec(body)
    return out


def _mentions(e, j):
    if e.eq(j):
        return True
    return any(_mentions(c, j) for c in e.children()) if z3.is_app(e) else False


def _has_quantifier(e):
    seen = set()

    def rec(x):
        if x.get_id() in seen:
            return False
        seen.add(x.get_id())
        if z3.is_quantifier(x):
            return True
        return any(rec(c) for c in x.children())
    return rec(e)


def _mentions_decl(e, name):
    seen = set()

    def rec(x):
        if x.get_id() in seen:
            return False
        seen.add(x.get_id())
        if z3.is_app(x) and x.decl().name() == name:
            return True
        return any(rec(c) for c in x.children())
    return rec(e)


def mk_forall(j, guard, body):
    """forall j. guard => body, instantiated on TR(j) markers and on array reads at j"""
    pats = [TR(j)] + _select_patterns(body, j)[:4]
    return z3.ForAll([j], z3.Implies(guard, body), patterns=pats)


def strip_goal(goal, hyps, out, depth=0):
    """reduce `hyps => goal` to a list of (hyps, atom-goal) by splitting conjunctions, moving antecedents to the
    hypotheses and instantiating leading universal quantifiers with fresh constants (marked with TR)."""
    if depth > 6 or len(out) > 60:
        out.append((hyps, goal))
        return
    while z3.is_not(goal) and z3.is_not(goal.arg(0)):
        goal = goal.arg(0).arg(0)
    if z3.is_and(goal):
        for a in goal.children():
            strip_goal(a, hyps, out, depth + 1)
        return
    if z3.is_implies(goal):
        strip_goal(goal.arg(1), hyps + [goal.arg(0)], out, depth + 1)
        return
    if z3.is_or(goal) and goal.num_args() == 2 and z3.is_not(goal.arg(0)):
        strip_goal(goal.arg(1), hyps + [goal.arg(0).arg(0)], out, depth + 1)
        return
    if z3.is_quantifier(goal) and goal.is_forall():
        c = cur()
        consts = []
        extra = []
        for i in range(goal.num_vars()):
            c.n += 1
            k = z3.Const(f"sk!{c.n}", goal.var_sort(i))
            consts.append(k)
            if goal.var_sort(i) == z3.IntSort():
                extra.append(TR(k))
                for L in c.lengths[:6]:
                    extra.append(TR(L - 1 - k))
        body = z3.substitute_vars(goal.body(), *reversed(consts))
        strip_goal(body, hyps + extra, out, depth + 1)
        return
    out.append((hyps, goal))


# ------------------------------------------------------------------------------------------
# lifting Python values to z3

def fml(x):
    """a Python bool / SBool / z3 Bool -> z3 Bool"""
    if isinstance(x, SBool):
        return x.e
    if isinstance(x, bool):
        return z3.BoolVal(x)
    if z3.is_expr(x) and z3.is_bool(x):
        return x
    if isinstance(x, (SInt, int)):
        return lift(x) != 0
    if isinstance(x, SSeq):
        return lift(x.length()) > 0
    if x is None:
        return z3.BoolVal(False)
    raise Unsupported(f"not a formula: {type(x).__name__}")


def lift(x):
    if isinstance(x, Sym):
        return x.e
    if isinstance(x, bool):
        return z3.BoolVal(x)
    if isinstance(x, int):
        return z3.IntVal(x)
    if isinstance(x, float):
        if x != x or x in (float("inf"), float("-inf")):
            raise Unsupported("non-finite float")
        return z3.RealVal(str(Fraction(x)))
    if isinstance(x, Fraction):
        return z3.RealVal(str(x))
    if isinstance(x, str):
        return z3.StringVal(x)
    if x is None:
        return PY_NONE
    if z3.is_expr(x):
        return x
    try:
        import numpy as np
        if isinstance(x, np.integer):
            return z3.IntVal(int(x))
        if isinstance(x, np.floating):
            return lift(float(x))
    except ImportError:  # pragma: no cover
        pass
    raise Unsupported(f"cannot lift {type(x).__name__} to a term")


def wrap_expr(e):
    s = e.sort()
    if s == z3.IntSort():
        se = z3.simplify(e)   # only to recognise constants: the term itself keeps the shape the code gave it
        return se.as_long() if z3.is_int_value(se) else SInt(e)
    if s == z3.RealSort():
        return SReal(e)
    if s == z3.BoolSort():
        se = z3.simplify(e)
        if z3.is_true(se):
            return True
        if z3.is_false(se):
            return False
        return SBool(e)
    if s == z3.StringSort():
        return SStr(e)
    if s == Obj:
        return SObj(None, e)
    raise Unsupported(f"cannot wrap sort {s}")


def is_symbolic(x):
    if isinstance(x, Sym):
        return True
    if isinstance(x, SSeq):
        return True
    if isinstance(x, (list, tuple)):
        return any(is_symbolic(v) for v in x)
    return False


def _coerce2(a, b):
    ea, eb = lift(a), lift(b)
    if ea.sort() == z3.BoolSort():
        ea = z3.If(ea, 1, 0)
    if eb.sort() == z3.BoolSort():
        eb = z3.If(eb, 1, 0)
    if ea.sort() != eb.sort():
        if ea.sort() == z3.IntSort() and eb.sort() == z3.RealSort():
            ea = z3.ToReal(ea)
        elif eb.sort() == z3.IntSort() and ea.sort() == z3.RealSort():
            eb = z3.ToReal(eb)
        else:
            raise Unsupported(f"mixed sorts {ea.sort()} / {eb.sort()}")
    return ea, eb


def _numeric(x):
    return isinstance(x, (SInt, SReal, SBool, int, float, Fraction)) and not isinstance(x, SStr)


def py_floordiv(a, b):
    """floor division on z3 Ints with Python semantics (b != 0)."""
    return z3.If(b > 0, a / b, (-a) / (-b))


class Sym:
    __slots__ = ("e",)

    def __init__(self, e):
        self.e = e

    def __repr__(self):
        return f"<{type(self).__name__} {self.e}>"

    def __hash__(self):
        return hash(self.e)


class _Num(Sym):
    __slots__ = ()

    def _bin(self, o, f, rev=False):
        if not _numeric(o):
            return NotImplemented
        a, b = _coerce2(self, o)
        if rev:
            a, b = b, a
        return wrap_expr(f(a, b))

    def __add__(self, o): return self._bin(o, lambda a, b: a + b)
    def __radd__(self, o): return self._bin(o, lambda a, b: a + b, True)
    def __sub__(self, o): return self._bin(o, lambda a, b: a - b)
    def __rsub__(self, o): return self._bin(o, lambda a, b: a - b, True)

    def __mul__(self, o):
        if isinstance(o, (list, tuple, SSeq)) and isinstance(self, SInt):
            return seq_repeat(o, self)
        return self._bin(o, lambda a, b: a * b)

    def __rmul__(self, o):
        if isinstance(o, (list, tuple, SSeq)) and isinstance(self, SInt):
            return seq_repeat(o, self)
        return self._bin(o, lambda a, b: a * b, True)

    def __neg__(self): return wrap_expr(-self.e)
    def __pos__(self): return self
    def __abs__(self): return wrap_expr(z3.If(self.e >= 0, self.e, -self.e))

    def _div(self, o, rev=False):
        if not _numeric(o):
            return NotImplemented
        a, b = _coerce2(self, o)
        if rev:
            a, b = b, a
        if not cur().nofork and cur().decide(b == 0):    # specification-level division (contracts) does not fork
            raise ZeroDivisionError("division by zero")
        if a.sort() == z3.IntSort():
            a, b = z3.ToReal(a), z3.ToReal(b)
        return wrap_expr(a / b)

    def __truediv__(self, o): return self._div(o)
    def __rtruediv__(self, o): return self._div(o, True)

    def _fdiv(self, o, rev=False, mod=False):
        if not _numeric(o):
            return NotImplemented
        a, b = _coerce2(self, o)
        if rev:
            a, b = b, a
        if a.sort() != z3.IntSort():
            raise Unsupported("floor division / modulo of reals")
        if not cur().nofork and cur().decide(b == 0):
            raise ZeroDivisionError("integer division or modulo by zero")
        q = py_floordiv(a, b)
        return wrap_expr(a - b * q if mod else q)

    def __floordiv__(self, o): return self._fdiv(o)
    def __rfloordiv__(self, o): return self._fdiv(o, True)
    def __mod__(self, o): return self._fdiv(o, mod=True)
    def __rmod__(self, o): return self._fdiv(o, True, True)

    def __pow__(self, o):
        if isinstance(o, int) and 0 <= o <= 4:
            r = 1
            for _ in range(o):
                r = r * self
            return r
        raise Unsupported("symbolic power")

    def __rpow__(self, o):
        if o == 2 and isinstance(self, SInt):
            return pow2(self)
        raise Unsupported("symbolic exponent")

    def _cmp(self, o, f):
        if not _numeric(o):
            return NotImplemented
        a, b = _coerce2(self, o)
        return wrap_expr(f(a, b))

    def __lt__(self, o): return self._cmp(o, lambda a, b: a < b)
    def __le__(self, o): return self._cmp(o, lambda a, b: a <= b)
    def __gt__(self, o): return self._cmp(o, lambda a, b: a > b)
    def __ge__(self, o): return self._cmp(o, lambda a, b: a >= b)

    def __eq__(self, o):
        if o is None:
            return False
        if not _numeric(o):
            return NotImplemented
        a, b = _coerce2(self, o)
        return wrap_expr(a == b)

    def __ne__(self, o):
        if o is None:
            return True
        if not _numeric(o):
            return NotImplemented
        a, b = _coerce2(self, o)
        return wrap_expr(a != b)

    __hash__ = Sym.__hash__

    def __bool__(self):
        return cur().decide(self.e != 0)


class SInt(_Num):
    __slots__ = ()

    def __index__(self):
        raise Unsupported("a symbolic integer was used where CPython needs a concrete index")

    def __int__(self):
        raise Unsupported("int() of a symbolic integer reached CPython")


class SReal(_Num):
    __slots__ = ()

    def __float__(self):
        raise Unsupported("float() of a symbolic real reached CPython")


class SBool(_Num):
    __slots__ = ()

    def __bool__(self):
        return cur().decide(self.e)

    def __eq__(self, o):
        if isinstance(o, (bool, SBool)):
            return wrap_expr(self.e == lift(o))
        return _Num.__eq__(self, o)

    __hash__ = Sym.__hash__

    def __invert__(self):
        return wrap_expr(z3.Not(self.e))

    def __and__(self, o): return wrap_expr(z3.And(self.e, fml(o)))
    def __rand__(self, o): return wrap_expr(z3.And(self.e, fml(o)))
    def __or__(self, o): return wrap_expr(z3.Or(self.e, fml(o)))
    def __ror__(self, o): return wrap_expr(z3.Or(self.e, fml(o)))


class SStr(Sym):
    __slots__ = ()

    def __eq__(self, o):
        if isinstance(o, (str, SStr)):
            return wrap_expr(self.e == lift(o))
        return False

    def __ne__(self, o):
        if isinstance(o, (str, SStr)):
            return wrap_expr(self.e != lift(o))
        return True

    __hash__ = Sym.__hash__

    def __add__(self, o): return SStr(z3.Concat(self.e, lift(o)))
    def __radd__(self, o): return SStr(z3.Concat(lift(o), self.e))
    def __len__(self): raise Unsupported("len() of symbolic str reached CPython")


_POW2 = z3.Function("pow2", z3.IntSort(), z3.IntSort())


def pow2(n):
    """2**n for symbolic n >= 0: uninterpreted with its defining axioms instantiated at use."""
    e = lift(n)
    c = cur()
    c.assume(z3.Implies(e == 0, _POW2(e) == 1))
    c.assume(z3.Implies(e > 0, _POW2(e) == 2 * _POW2(e - 1)))
    c.assume(z3.Implies(e >= 0, _POW2(e) >= 1))
    return wrap_expr(_POW2(e))


# ------------------------------------------------------------------------------------------
# opaque objects

OBJ_SCHEMAS: dict = {}   # class tag -> {attr: type-string | callable}


class SObj(Sym):
    """An element of the uninterpreted sort Obj.  Attribute reads are uninterpreted functions of the
    object, typed by OBJ_SCHEMAS[cls]."""
    __slots__ = ("cls",)

    def __init__(self, cls, e):
        object.__setattr__(self, "e", e)
        object.__setattr__(self, "cls", cls)

    def __getattr__(self, name):
        if name.startswith("__"):
            raise AttributeError(name)
        from . import vtypes
        sch = OBJ_SCHEMAS.get(self.cls)
        if sch is None or name not in sch:
            raise Unsupported(f"attribute {name!r} of opaque object of class {self.cls!r} has no schema")
        t = sch[name]
        if callable(t):
            return t(self)
        ty = vtypes.parse(t)
        f = z3.Function(f"{self.cls}.{name}", Obj, vtypes.sort_of(ty))
        return vtypes.wrap(ty, f(self.e))

    def __setattr__(self, name, value):
        raise Unsupported(f"write to attribute {name} of an opaque symbolic object")

    def __mul__(self, o):
        sch = OBJ_SCHEMAS.get(self.cls) or {}
        if "__mul__" not in sch:
            return NotImplemented
        return sch["__mul__"](self)(o)

    def __getitem__(self, i):
        sch = OBJ_SCHEMAS.get(self.cls) or {}
        if "__getitem__" not in sch:
            raise Unsupported(f"indexing an opaque object of class {self.cls!r}")
        return sch["__getitem__"](self)(i)

    def __iter__(self):
        raise Unsupported(f"iteration over an opaque object of class {self.cls!r}")

    def __bool__(self):
        """truth value of an opaque object: by its schema, else an uninterpreted predicate of the object (both outcomes are explored);
        it is never silently True"""
        sch = OBJ_SCHEMAS.get(self.cls) or {}
        if "__bool__" in sch:
            return sch["__bool__"](self)
        return cur().decide(z3.Function("truthy", Obj, z3.BoolSort())(self.e))

    def __call__(self, *a, **k):
        sch = OBJ_SCHEMAS.get(self.cls) or {}
        if "__call__" not in sch:
            raise Unsupported(f"call of an opaque object of class {self.cls!r}")
        return sch["__call__"](self)(*a, **k)

    def __eq__(self, o):
        if isinstance(o, SObj):
            return wrap_expr(self.e == o.e)
        if o is None:
            return False
        sch = OBJ_SCHEMAS.get(self.cls) or {}
        if "__eq__" in sch:
            return sch["__eq__"](self)(o)
        return NotImplemented

    def __ne__(self, o):
        if isinstance(o, SObj):
            return wrap_expr(self.e != o.e)
        if o is None:
            return True
        sch = OBJ_SCHEMAS.get(self.cls) or {}
        if "__eq__" in sch:
            return wrap_expr(z3.Not(fml(sch["__eq__"](self)(o))))
        return NotImplemented

    __hash__ = Sym.__hash__

    def __repr__(self):
        return f"<SObj {self.cls} {self.e}>"


# ------------------------------------------------------------------------------------------
# sequences (structural algebra; see module docstring)

class SSeq:
    """A list or tuple whose length and/or elements are symbolic.  `node` is one of
       ('lit', [values])                 concrete length
       ('rep', count, value)             count copies of one value
       ('cat', A, B)
       ('arr', length, z3array, elemtype)
       ('fun', length, f)                f(i) -> value for 0 <= i < length   (i: python int or SInt)
       ('flat', outer)                   concatenation of the sequences that are outer's elements
    SSeq objects of kind 'list' are mutable (append / extend / item assignment rebind `node`)."""

    def __init__(self, node, kind="list"):
        self.node = node
        self.kind = kind

    # ---- construction helpers
    @staticmethod
    def of(x, kind=None):
        if isinstance(x, SSeq):
            return x
        if isinstance(x, list):
            return SSeq(("lit", list(x)), kind or "list")
        if isinstance(x, tuple):
            return SSeq(("lit", list(x)), kind or "tuple")
        if isinstance(x, range):
            return SSeq(("lit", list(x)), kind or "tuple")
        raise Unsupported(f"not a sequence: {type(x).__name__}")

    # ---- length
    def length(self):
        return _slen(self.node)

    def __len__(self):
        n = self.length()
        if isinstance(n, int):
            return n
        raise Unsupported("len() of a symbolic-length sequence reached CPython (use the rebound len)")

    def __bool__(self):
        n = self.length()
        if isinstance(n, int):
            return n > 0
        return cur().decide(n.e > 0)

    # ---- indexing
    def get(self, i):
        return _sget(self.node, i)

    def __getitem__(self, i):
        if isinstance(i, slice):
            if i.step not in (None, 1):
                if i.step == -1 and i.start is None and i.stop is None:
                    return seq_reverse(self)
                raise Unsupported("slice step")
            n = self.length()
            lo = 0 if i.start is None else i.start
            hi = n if i.stop is None else i.stop
            return seq_slice(self, lo, hi)
        n = self.length()
        if isinstance(i, int) and i < 0:
            i = n + i
        elif cur().nofork:
            return self.get(i)  # specification-level indexing (contracts, quantifier bodies): no bounds fork
        elif isinstance(i, SInt):
            if cur().decide(i.e < 0):
                i = n + i
        # bounds: IndexError is an observable behaviour
        if not (isinstance(i, int) and isinstance(n, int)):
            ok = z3.And(lift(i) >= 0, lift(i) < lift(n))
            if not cur().decide(ok):
                raise IndexError("sequence index out of range")
        elif not (0 <= i < n):
            raise IndexError("sequence index out of range")
        return self.get(i)

    def __iter__(self):
        n = self.length()
        if isinstance(n, int):
            return iter([self.get(i) for i in range(n)])
        raise Unsupported("iteration over a symbolic-length sequence without a loop contract")

    # ---- algebra
    def __add__(self, o):
        if isinstance(o, (list, tuple, SSeq)):
            return SSeq(("cat", self.node, SSeq.of(o).node), self.kind)
        return NotImplemented

    def __radd__(self, o):
        if isinstance(o, (list, tuple)):
            return SSeq(("cat", SSeq.of(o).node, self.node), "list" if isinstance(o, list) else "tuple")
        return NotImplemented

    def __mul__(self, k):
        if isinstance(k, (int, SInt)):
            return seq_repeat(self, k)
        return NotImplemented

    __rmul__ = __mul__

    # ---- mutation (lists only)
    def append(self, v):
        if self.kind != "list":
            raise AttributeError("tuple has no append")
        self.node = ("cat", self.node, ("lit", [v]))

    def extend(self, o):
        if self.kind != "list":
            raise AttributeError("tuple has no extend")
        self.node = ("cat", self.node, SSeq.of(o).node)

    def __iadd__(self, o):
        if self.kind == "list":
            self.extend(o)
            return self
        return self + o

    def __setitem__(self, i, v):
        if self.kind != "list":
            raise TypeError("'tuple' object does not support item assignment")
        n = self.length()
        if isinstance(i, slice):
            raise Unsupported("slice assignment")
        if isinstance(i, int) and i < 0:
            i = n + i
        ok = z3.And(lift(i) >= 0, lift(i) < lift(n))
        if not cur().decide(ok):
            raise IndexError("list assignment index out of range")
        old = self.node
        idx = i

        def f(j, old=old, idx=idx, v=v):
            return ite_value(lift(j) == lift(idx), v, lambda: _sget(old, j))
        self.node = ("fun", n, f)

    def copy(self):
        return SSeq(self.node, self.kind)

    def __eq__(self, o):
        if isinstance(o, (list, tuple, SSeq)):
            return wrap_expr(seq_eq(self, SSeq.of(o)))
        return False

    def __ne__(self, o):
        r = self.__eq__(o)
        return wrap_expr(z3.Not(fml(r)))

    __hash__ = None

    def __repr__(self):
        return f"<SSeq {self.kind} {self.node[0]} len={self.length()}>"

    def __contains__(self, x):
        return cur().decide(seq_exists(self, lambda v: val_eq(v, x)))

    def index(self, x):
        raise Unsupported("list.index on symbolic sequence")


def _slen(node):
    t = node[0]
    if t == "lit":
        return len(node[1])
    if t == "rep":
        c = node[1]
        return c if isinstance(c, int) else wrap_expr(z3.If(lift(c) > 0, lift(c), 0))
    if t == "cat":
        return _slen(node[1]) + _slen(node[2])
    if t in ("arr", "fun"):
        return node[1]
    if t == "flat":
        outer = node[1]
        return seq_sum(seq_map(outer, lambda s: SSeq.of(s).length()))
    raise Unsupported(t)


def ite_value(cond, a, b_thunk):
    """value-level if-then-else; merges z3-representable scalars, otherwise forks."""
    cond = z3.simplify(fml(cond))
    if z3.is_true(cond):
        return a
    if z3.is_false(cond):
        return b_thunk()
    c = cur()
    if isinstance(a, (Sym, int, float, bool)) and not isinstance(a, SObj) or isinstance(a, SObj):
        # evaluate the other side under the negated condition (no side effects expected: pure reads)
        b = b_thunk()
        try:
            ea, eb = lift(a), lift(b)
            if ea.sort() != eb.sort():
                ea, eb = _coerce2(a, b)
            r = wrap_expr(z3.If(cond, ea, eb))
            if isinstance(r, SObj):
                cls = a.cls if isinstance(a, SObj) else None
                r = SObj(cls, r.e)
            return r
        except Unsupported:
            pass
        if c.decide(cond):
            return a
        return b
    if c.decide(cond):
        return a
    return b_thunk()


def _sget(node, i):
    t = node[0]
    if t == "lit":
        vals = node[1]
        if isinstance(i, int):
            return vals[i]
        if len(vals) == 1:
            return vals[0]
        if not vals:
            return SObj(None, cur().fresh("undef", Obj))   # element of an empty sequence: only under a false guard

        def chain(k):
            if k == len(vals) - 1:
                return vals[k]
            return ite_value(lift(i) == k, vals[k], lambda: chain(k + 1))
        return chain(0)
    if t == "rep":
        return node[2]
    if t == "cat":
        la = _slen(node[1])
        if isinstance(la, int) and isinstance(i, int):
            return _sget(node[1], i) if i < la else _sget(node[2], i - la)
        if isinstance(la, int) and la == 0:
            return _sget(node[2], i)
        return ite_value(lift(i) < lift(la), None if False else _Lazy(lambda: _sget(node[1], i)).force(),
                         lambda: _sget(node[2], i - la)) if False else _cat_get(node, i, la)
    if t == "arr":
        from . import vtypes
        return vtypes.wrap(node[3], z3.Select(node[2], lift(i)))
    if t == "fun":
        return node[2](i)
    if t == "flat":
        raise Unsupported("indexing into a flattened sequence")
    raise Unsupported(t)


class _Lazy:
    def __init__(self, f):
        self.f = f

    def force(self):
        return self.f()


def _cat_get(node, i, la):
    cond = z3.simplify(lift(i) < lift(la))
    if z3.is_true(cond):
        return _sget(node[1], i)
    if z3.is_false(cond):
        return _sget(node[2], i - la)
    c = cur()
    # try a merge of scalar values; both sides are evaluated under their guard
    try:
        c.nofork += 1
        try:
            a = _sget(node[1], i)
            b = _sget(node[2], i - la)
        finally:
            c.nofork -= 1
        if isinstance(a, (Sym, int, float, bool)) and isinstance(b, (Sym, int, float, bool)):
            ea, eb = lift(a), lift(b)
            if ea.sort() != eb.sort():
                ea, eb = _coerce2(a, b)
            r = wrap_expr(z3.If(cond, ea, eb))
            if isinstance(r, SObj):
                r = SObj(getattr(a, "cls", None) or getattr(b, "cls", None), r.e)
            return r
    except Unsupported:
        pass
    if c.decide(cond):
        return _sget(node[1], i)
    return _sget(node[2], i - la)


def seq_repeat(seq, k):
    s = SSeq.of(seq)
    n = s.length()
    if isinstance(k, int):
        if isinstance(n, int) and s.node[0] == "lit":
            return SSeq(("lit", s.node[1] * k), s.kind)
        if k <= 0:
            return SSeq(("lit", []), s.kind)
    if isinstance(n, int) and n == 1:
        return SSeq(("rep", k, s.get(0)), s.kind)
    if isinstance(n, int) and n == 0:
        return SSeq(("lit", []), s.kind)
    raise Unsupported("repetition of a multi-element sequence a symbolic number of times")


def seq_slice(s, lo, hi):
    s = SSeq.of(s)
    n = s.length()
    c = cur()

    def norm(x):
        if isinstance(x, int) and x < 0:
            x = n + x
        elif isinstance(x, SInt) and c.decide(x.e < 0):
            x = n + x
        # clamp
        if isinstance(x, int) and isinstance(n, int):
            return max(0, min(x, n))
        ex, en = lift(x), lift(n)
        return wrap_expr(z3.If(ex < 0, 0, z3.If(ex > en, en, ex)))
    lo, hi = norm(lo), norm(hi)
    if isinstance(lo, int) and isinstance(hi, int) and s.node[0] == "lit":
        return SSeq(("lit", s.node[1][lo:hi]), s.kind)
    ln = hi - lo
    if not isinstance(ln, int):
        ln = wrap_expr(z3.If(lift(ln) > 0, lift(ln), 0))
    else:
        ln = max(0, ln)
    node = s.node
    return SSeq(("fun", ln, lambda j: _sget(node, lo + j)), s.kind)


def seq_reverse(s):
    s = SSeq.of(s)
    n = s.length()
    node = s.node
    if node[0] == "lit":
        return SSeq(("lit", node[1][::-1]), s.kind)
    return SSeq(("fun", n, lambda j: _sget(node, n - 1 - j)), s.kind)


def seq_map(s, f):
    s = SSeq.of(s)
    node = s.node
    if node[0] == "lit":
        return SSeq(("lit", [f(v) for v in node[1]]), "list")
    if node[0] == "rep":
        return SSeq(("rep", node[1], f(node[2])), "list")
    if node[0] == "cat":
        return SSeq(("cat", seq_map(SSeq(node[1]), f).node, seq_map(SSeq(node[2]), f).node), "list")
    return SSeq(("fun", s.length(), lambda j: f(_sget(node, j))), "list")


_SSUM = {}


def _ssum_fn(sort):
    k = str(sort)
    if k not in _SSUM:
        _SSUM[k] = z3.Function(f"ssum_{k}", z3.ArraySort(z3.IntSort(), sort), z3.IntSort(), z3.IntSort(), sort)
    return _SSUM[k]


def node_to_array(node):
    """(array term, elem sort) whose select at 0..len-1 gives the elements (scalars only)."""
    if node[0] == "arr":
        from . import vtypes
        return node[2], vtypes.sort_of(node[3])
    j = z3.Int("j!lam")
    c = cur()
    c.nofork += 1
    try:
        v = _sget(node, SInt(j))
    finally:
        c.nofork -= 1
    e = lift(v)
    return z3.Lambda([j], e), e.sort()


def seq_sum(s, start=0):
    """sum of a numeric sequence, by structural rules; an 'arr'/'fun' leaf becomes ssum(array, 0, len)
    (uninterpreted, with its unfolding axioms instantiated at the ends)."""
    s = SSeq.of(s)
    return start + _ssum(s.node)


def _ssum(node):
    t = node[0]
    if t == "lit":
        r = 0
        for v in node[1]:
            r = r + v
        return r
    if t == "rep":
        c = node[1]
        if isinstance(c, int):
            return c * node[2] if c > 0 else 0
        return wrap_expr(z3.If(lift(c) > 0, lift(c * node[2]), lift(0 * node[2])))
    if t == "cat":
        return _ssum(node[1]) + _ssum(node[2])
    if t == "flat":
        return _ssum(seq_map(node[1], lambda s: seq_sum(s)).node)
    n = _slen(node)
    arr, sort = node_to_array(node)
    return ssum_range(arr, sort, 0, n)


def ssum_range(arr, sort, lo, hi):
    f = _ssum_fn(sort)
    elo, ehi = lift(lo), lift(hi)
    c = cur()
    zero = z3.IntVal(0) if sort == z3.IntSort() else z3.RealVal(0)
    if ("ssum_empty", str(sort)) not in c.axioms_done:
        # a sum over an empty range is zero - for every array, also for sums that are mentioned under a quantifier (the instance facts below are
        # about the terms of this call only)
        c.axioms_done.add(("ssum_empty", str(sort)))
        a_, l_, h_ = z3.Const("a!se", z3.ArraySort(z3.IntSort(), sort)), z3.Int("l!se"), z3.Int("h!se")
        c.axioms.append(z3.ForAll([a_, l_, h_], z3.Implies(h_ <= l_, f(a_, l_, h_) == zero), patterns=[f(a_, l_, h_)]))
    c.assume(z3.Implies(ehi <= elo, f(arr, elo, ehi) == zero))
    c.assume(z3.Implies(ehi > elo, f(arr, elo, ehi) == f(arr, elo, ehi - 1) + z3.Select(arr, ehi - 1)))
    c.assume(z3.Implies(ehi > elo, f(arr, elo, ehi) == z3.Select(arr, elo) + f(arr, elo + 1, ehi)))
    return wrap_expr(f(arr, elo, ehi))


def seq_forall(s, pred):
    """z3 formula: pred(v) holds for every element (pred returns a formula-like)."""
    s = SSeq.of(s)
    return _sall(s.node, pred, True)


def seq_exists(s, pred):
    s = SSeq.of(s)
    return z3.Not(_sall(s.node, lambda v: z3.Not(fml(pred(v))), True))


def _sall(node, pred, _):
    t = node[0]
    if t == "lit":
        fs = [fml(pred(v)) for v in node[1]]
        return z3.And(*fs) if fs else z3.BoolVal(True)
    if t == "rep":
        c = node[1]
        if isinstance(c, int):
            return fml(pred(node[2])) if c > 0 else z3.BoolVal(True)
        return z3.Implies(lift(c) > 0, fml(pred(node[2])))
    if t == "cat":
        return z3.And(_sall(node[1], pred, _), _sall(node[2], pred, _))
    if t == "flat":
        return _sall(SSeq.of(node[1]).node, lambda inner: seq_forall(inner, pred), _)
    n = _slen(node)
    if isinstance(n, int):
        fs = [fml(pred(_sget(node, i))) for i in range(n)]
        return z3.And(*fs) if fs else z3.BoolVal(True)
    c = cur()
    c.n += 1
    j = z3.Int(f"q!{c.n}")
    c.nofork += 1
    try:
        body = fml(pred(_sget(node, SInt(j))))
    finally:
        c.nofork -= 1
    return mk_forall(j, z3.And(j >= 0, j < lift(n)), body)


def val_eq(a, b):
    """structural equality of two (possibly symbolic) Python values as a formula"""
    if isinstance(a, (tuple, list, SSeq)) and isinstance(b, (tuple, list, SSeq)):
        return seq_eq(SSeq.of(a), SSeq.of(b))
    if isinstance(a, (tuple, list, SSeq)) or isinstance(b, (tuple, list, SSeq)):
        return z3.BoolVal(False)
    if (a is None or b is None) and not (isinstance(a, SObj) or isinstance(b, SObj)):
        return z3.BoolVal(a is b)
    if isinstance(a, Sym) or isinstance(b, Sym):
        try:
            ea, eb = lift(a), lift(b)
            if ea.sort() != eb.sort():
                ea, eb = _coerce2(a, b)
            return ea == eb
        except Unsupported:
            return z3.BoolVal(False)
    r = (a == b)
    if isinstance(r, Sym):
        return fml(r)
    return z3.BoolVal(bool(r))


def seq_eq(a, b):
    la, lb = a.length(), b.length()
    if isinstance(la, int) and isinstance(lb, int):
        if la != lb:
            return z3.BoolVal(False)
        fs = [val_eq(a.get(i), b.get(i)) for i in range(la)]
        return z3.And(*fs) if fs else z3.BoolVal(True)
    c = cur()
    c.n += 1
    j = z3.Int(f"q!{c.n}")
    c.nofork += 1
    try:
        body = val_eq(a.get(SInt(j)), b.get(SInt(j)))
    finally:
        c.nofork -= 1
    return z3.And(lift(la) == lift(lb), mk_forall(j, z3.And(j >= 0, j < lift(la)), body))


# ------------------------------------------------------------------------------------------
# counterexample extraction

def concretize(v, m, cap=6):
    if not isinstance(v, Sym) and hasattr(v, "vfw_concretize"):
        return v.vfw_concretize(m, cap)
    if isinstance(v, SObj):
        hook = (OBJ_SCHEMAS.get(v.cls) or {}).get("__concretize__")
        if hook is not None:
            return hook(v, m)
        return f"<{v.cls} {m.eval(v.e, model_completion=True)}>"
    if isinstance(v, Sym):
        r = m.eval(v.e, model_completion=True)
        if z3.is_int_value(r):
            return r.as_long()
        if z3.is_rational_value(r):
            return float(r.as_fraction())
        if z3.is_true(r):
            return True
        if z3.is_false(r):
            return False
        if z3.is_string_value(r):
            return r.as_string()
        return str(r)
    if isinstance(v, SSeq):
        n = v.length()
        nn = n if isinstance(n, int) else concretize(n, m)
        if not isinstance(nn, int):
            return f"<seq len={nn}>"
        out = []
        c = cur()
        c.nofork += 1
        try:
            for i in range(max(0, min(nn, cap))):
                try:
                    out.append(concretize(v.get(i), m))
                except Exception as e:
                    out.append(f"<{type(e).__name__}>")
        finally:
            c.nofork -= 1
        if nn > cap:
            out.append(f"... ({nn} elements)")
        return out
    if isinstance(v, (list, tuple)):
        return [concretize(x, m) for x in v]
    if isinstance(v, dict):
        return {str(k): concretize(x, m) for k, x in v.items()}
    if isinstance(v, (int, float, str, bool)) or v is None:
        return v
    return repr(v)[:200]
