"""Reading the real source on every run.

`module_ast(modname)` parses /repo/src/.../<mod>.py as it is NOW.
`shadow_load(modname, overrides, transform)` executes that text (imports dropped, because the
namespace is seeded from the really-imported module) in a fresh namespace whose globals are the
real module's globals with `overrides` applied.  Every def / class of the file is thereby
re-created from the current source text, bound to the abstract library models instead of
numpy / sympy, or to contract stubs instead of callees.  Nothing is hand-copied.

What the extraction drops: `import` statements (their bindings come from the real module object or
from `overrides`), module docstring.  Everything else is executed as written.
"""
from __future__ import annotations

import ast
import hashlib
import importlib
import os
import types
from typing import Callable, Dict, Optional

from . import core

_cache: Dict[str, ast.Module] = {}


def path_of(modname: str) -> str:
    p = os.path.join(core.SRC, *modname.split("."))
    if os.path.isdir(p):
        return os.path.join(p, "__init__.py")
    return p + ".py"


def source_of(modname: str) -> str:
    with open(path_of(modname)) as f:
        return f.read()


def module_ast(modname: str) -> ast.Module:
    return ast.parse(source_of(modname), filename=path_of(modname))


def source_digest(modname: str) -> str:
    return hashlib.sha256(source_of(modname).encode()).hexdigest()[:12]


def find_def(tree: ast.AST, qualname: str) -> ast.AST:
    """FunctionDef / ClassDef by dotted qualified name within a module AST."""
    node = tree
    for part in qualname.split("."):
        found = None
        for ch in ast.iter_child_nodes(node):
            if isinstance(ch, (ast.FunctionDef, ast.ClassDef, ast.AsyncFunctionDef)) and ch.name == part:
                found = ch  # last definition wins, like at run time
        if found is None:
            # nested function inside a function body
            for ch in ast.walk(node):
                if isinstance(ch, (ast.FunctionDef, ast.ClassDef)) and ch.name == part and ch is not node:
                    found = ch
                    break
        if found is None:
            raise KeyError(f"{qualname}: '{part}' not found")
        node = found
    return node


def span(modname: str, qualname: str) -> str:
    n = find_def(module_ast(modname), qualname)
    return f"{os.path.relpath(path_of(modname), core.REPO)}:{n.lineno}-{n.end_lineno}"


class _DropImports(ast.NodeTransformer):
    def visit_Import(self, node):
        return None

    def visit_ImportFrom(self, node):
        if node.module == "__future__":
            return node
        return None


def shadow_load(modname: str, overrides: Optional[Dict[str, object]] = None,
                transform: Optional[Callable[[ast.Module], ast.Module]] = None,
                name_suffix: str = "shadow", rebind: Optional[Dict[str, object]] = None) -> types.SimpleNamespace:
    real = importlib.import_module(modname)
    tree = module_ast(modname)
    tree = _DropImports().visit(tree)
    # a body may have become empty (e.g. try: import ... except ImportError: ...)
    for node in ast.walk(tree):
        for field in ("body", "orelse", "finalbody"):
            b = getattr(node, field, None)
            if isinstance(b, list) and not b and field == "body":
                b.append(ast.Pass())
    if transform is not None:
        tree = transform(tree)
    ast.fix_missing_locations(tree)
    ns = dict(real.__dict__)
    ns["__name__"] = modname  # dataclasses look the module up in sys.modules
    if rebind:
        # every name the real module imported from a repository module that HAS a shadow (a class, a function, a module-level object such as a gate) is bound to
        # the shadow's object of the same name - also names a later edit of the text starts importing (`from ..circuits._gates import Dagger`): otherwise
        # `isinstance(shadow_gate, <real Dagger>)` is silently False and a changed branch is never taken
        for k, v in list(ns.items()):
            if k.startswith("__"):
                continue
            if isinstance(v, types.ModuleType) and v.__name__ in rebind:
                ns[k] = types.SimpleNamespace(**{a: b for a, b in vars(rebind[v.__name__]).items() if not a.startswith("__")})
                continue
            mod = getattr(v, "__module__", None)
            nm = getattr(v, "__name__", None)
            if mod in rebind and nm and hasattr(rebind[mod], nm):
                ns[k] = getattr(rebind[mod], nm)
                continue
            for rmod, sh in rebind.items():       # module-level instances (built-in gates): found by identity in the real module
                rm = importlib.import_module(rmod)
                hit = next((a for a, b in vars(rm).items() if b is v and not a.startswith("__")), None) if not isinstance(v, (int, float, str, bool, type(None))) else None
                if hit and hasattr(sh, hit):
                    ns[k] = getattr(sh, hit)
                    break
    if overrides:
        ns.update(overrides)
    code = compile(tree, path_of(modname), "exec")
    exec(code, ns)
    return types.SimpleNamespace(**{k: v for k, v in ns.items() if not k.startswith("__")}, __ns__=ns)
