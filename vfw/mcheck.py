"""Deciding matrix identities over Engine M and packaging the result as an Outcome."""
from __future__ import annotations

import random
import time
from typing import Callable, Optional

from . import core, trig, replay as rp


RAW_Z3_MAX_DIM = 4  # z3 gets the raw (unreduced) polynomials of matrices up to this size


def decide_equal(A: trig.SMat, B: trig.SMat, use_z3: bool = True, z3_timeout_ms: int = 20000, raw=None):
    """Returns (verdict, info). verdict in {'equal','different','undecided'}.
    'equal' requires BOTH back ends to agree when z3 answers (nf zero and z3 unsat); if z3 says
    unknown the exact normal form decides alone and that is recorded."""
    if A.shape != B.shape:
        return "different", {"reason": f"shape {A.shape} != {B.shape}", "entry": None, "diff": None, "z3": "n/a", "queries": 0}
    z3_results = []
    queries = 0
    for i in range(A.rows):
        for j in range(A.cols):
            d = A.m[i][j] - B.m[i][j]
            if d.is_zero_syntactic() and (raw is None or (raw[0].m[i][j] - raw[1].m[i][j]).is_zero_syntactic()):
                continue
            queries += 1
            nf = trig.canon(d)
            if nf.t:
                w = trig.witness(nf, random.Random(1234 + 31 * i + j))
                if w is None:
                    # normal form non-zero but numerically tiny everywhere tried
                    return "undecided", {"reason": "non-zero normal form without numeric witness", "entry": (i, j),
                                         "diff": repr(nf)[:500], "z3": "n/a", "queries": queries}
                return "different", {"reason": "normal form of the difference is a non-zero polynomial",
                                     "entry": (i, j), "diff": repr(nf)[:500], "witness": w[0], "value": str(w[1]),
                                     "z3": "n/a", "queries": queries}
            if use_z3:
                r = trig.z3_is_zero(d if raw is None else raw[0].m[i][j] - raw[1].m[i][j], z3_timeout_ms)
                z3_results.append(r)
                if r == "sat":
                    return "undecided", {"reason": "BACK-END DISAGREEMENT: normal form zero but z3 sat", "entry": (i, j),
                                         "diff": repr(d)[:500], "z3": r, "queries": queries}
    zs = "n/a" if not z3_results else ("unsat" if all(r == "unsat" for r in z3_results) else "unsat+unknown")
    return "equal", {"z3": zs, "queries": queries, "z3_queries": len(z3_results)}


def identity_outcome(build: Callable[[], tuple], replay_code: Optional[Callable[[dict], str]] = None,
                     expected: str = "", finding_key: str = "") -> core.Outcome:
    """build() -> (A, B) SMat pair (computed from the real source by the caller).
    replay_code(env) -> python text evaluating the real code at the witness `env`."""
    t0 = time.time()
    try:
        A, B = build()
    except trig.Unsupported as e:
        return core.undecided("engine-M", f"outside Engine M's fragment: {e}", time.time() - t0)
    raw = None
    if A.shape == B.shape and A.rows <= RAW_Z3_MAX_DIM:
        try:
            with trig.raw_mode():
                raw = build()
            if raw[0].shape != A.shape or raw[1].shape != B.shape:
                raw = None
        except Exception:
            raw = None
    verdict, info = decide_equal(A, B, raw=raw)
    dt = time.time() - t0
    if verdict == "equal":
        be = "ring-normal-form+z3-nlsat" if info["z3"] == "unsat" else (
            "ring-normal-form" if info["z3"] in ("n/a", "unsat+unknown") else "ring-normal-form")
        if info["queries"] == 0:
            be = "syntactic-identity"
        return core.discharged(be, dt, queries=max(1, info["queries"]),
                               sample={"entries_decided": info["queries"], "z3": info["z3"]})
    if verdict == "undecided":
        return core.undecided("engine-M", str(info), dt)
    rep = None
    if replay_code is not None and info.get("witness") is not None:
        rep = rp.replay_dict(replay_code(info["witness"]), expected)
    elif replay_code is not None and info.get("entry") is None:
        rep = rp.replay_dict(replay_code({}), expected)
    return core.refuted("ring-normal-form", f"{info['reason']}; entry {info.get('entry')}: {info.get('diff')}",
                        cex={"parameters": info.get("witness"), "entry": info.get("entry"), "difference_there": info.get("value")},
                        replay=rep, finding_key=finding_key, seconds=dt, queries=max(1, info.get("queries", 1)))
