/-
Lean 4 / Mathlib twins of the generator-side rewriting rules of Engine M (vfw/trig.py) and of the prelude
lemmas quoted in DESIGN.md.  Each statement is the mathematical fact the Python code applies as a rewrite rule;
the residual trust is that the Python rule is a faithful transcription of the statement proved here.
Checked with:  cd /opt/veriftools/mathlib4 && lake env lean /verif/lean/Prelude.lean
-/
import Mathlib

open Real

namespace VerifPrelude

/-- Euler's formula: `sympy.exp(I*x)` is read as `cos x + i sin x`. -/
theorem euler (x : ℝ) : Complex.exp (x * Complex.I) = Complex.cos x + Complex.sin x * Complex.I :=
  Complex.exp_mul_I x

/-- addition formulas: `cos((a+b))`, `sin((a+b))` are expanded into single-variable atoms. -/
theorem cos_add_rule (a b : ℝ) : cos (a + b) = cos a * cos b - sin a * sin b := Real.cos_add a b
theorem sin_add_rule (a b : ℝ) : sin (a + b) = sin a * cos b + cos a * sin b := Real.sin_add a b
theorem cos_neg_rule (a : ℝ) : cos (-a) = cos a := Real.cos_neg a
theorem sin_neg_rule (a : ℝ) : sin (-a) = -sin a := Real.sin_neg a

/-- reduction `s^2 -> 1 - c^2`. -/
theorem pythagoras (a : ℝ) : sin a ^ 2 = 1 - cos a ^ 2 := by
  have h := Real.sin_sq_add_cos_sq a
  linarith

/-- multiple-angle (Chebyshev) recurrences used by `canon` to bring all atoms of one variable to a common base angle. -/
theorem cheb_cos (n : ℕ) (x : ℝ) : cos ((n + 2 : ℕ) * x) = 2 * cos x * cos ((n + 1 : ℕ) * x) - cos (n * x) := by
  have h1 : ((n + 2 : ℕ) : ℝ) * x = ((n + 1 : ℕ) : ℝ) * x + x := by push_cast; ring
  have h2 : (n : ℝ) * x = ((n + 1 : ℕ) : ℝ) * x - x := by push_cast; ring
  rw [h1, h2, Real.cos_add, Real.cos_sub]
  ring

theorem cheb_sin (n : ℕ) (x : ℝ) : sin ((n + 2 : ℕ) * x) = 2 * cos x * sin ((n + 1 : ℕ) * x) - sin (n * x) := by
  have h1 : ((n + 2 : ℕ) : ℝ) * x = ((n + 1 : ℕ) : ℝ) * x + x := by push_cast; ring
  have h2 : (n : ℝ) * x = ((n + 1 : ℕ) : ℝ) * x - x := by push_cast; ring
  rw [h1, h2, Real.sin_add, Real.sin_sub]
  ring

/-- table values at multiples of pi/4 and `r2 = sqrt 2`. -/
theorem cos_pi_div_four_rule : cos (π / 4) = √2 / 2 := Real.cos_pi_div_four
theorem sin_pi_div_four_rule : sin (π / 4) = √2 / 2 := Real.sin_pi_div_four
theorem cos_pi_div_two_rule : cos (π / 2) = 0 := Real.cos_pi_div_two
theorem sin_pi_div_two_rule : sin (π / 2) = 1 := Real.sin_pi_div_two
theorem cos_pi_rule : cos π = -1 := Real.cos_pi
theorem sin_pi_rule : sin π = 0 := Real.sin_pi
theorem sqrt_two_sq : (√2 : ℝ) ^ 2 = 2 := Real.sq_sqrt (by norm_num)

/-- `exp(-i theta P) = cos theta - i sin theta P` for an involution `P` is used in C16 via `P*P = 1`:
    here the scalar skeleton of the argument: the even/odd split of the exponential series is Euler's formula. -/
theorem exp_neg_I (θ : ℝ) : Complex.exp (-(θ : ℂ) * Complex.I) = Complex.cos θ - Complex.sin θ * Complex.I := by
  have := Complex.exp_mul_I (-(θ : ℂ))
  simpa [Complex.cos_neg, Complex.sin_neg, sub_eq_add_neg] using this

/-- parity of a symmetric difference (C10): for finite sets, |A Δ B| ≡ |A| + |B| (mod 2). -/
theorem card_symmDiff_mod_two {α : Type*} [DecidableEq α] (A B : Finset α) :
    (symmDiff A B).card % 2 = (A.card + B.card) % 2 := by
  have hd : Disjoint (A \ B) (B \ A) := by
    rw [Finset.disjoint_left]
    intro x hx hy
    simp only [Finset.mem_sdiff] at hx hy
    exact hx.2 hy.1
  have h1 : (symmDiff A B).card = (A \ B).card + (B \ A).card := by
    rw [symmDiff_def, Finset.sup_eq_union, Finset.card_union_of_disjoint hd]
  have h2 := Finset.card_sdiff_add_card_inter A B
  have h3 := Finset.card_sdiff_add_card_inter B A
  rw [Finset.inter_comm B A] at h3
  omega

/-- sums (C13): the sum of a flattened list is the sum of the sums; a list of `k` copies of `m` sums to `k*m`. -/
theorem sum_flatten (L : List (List ℤ)) : L.flatten.sum = (L.map List.sum).sum := List.sum_flatten
theorem sum_replicate (k : ℕ) (m : ℤ) : (List.replicate k m).sum = k * m := by
  simp [List.sum_replicate]

/-- prefix sums of a list of natural numbers are monotone (assumed lemma `nonneg_prefix_sums` of Engine V, C13). -/
theorem psum_mono (l : List ℕ) {i j : ℕ} (h : i ≤ j) : (l.take i).sum ≤ (l.take j).sum := by
  have hp : (l.take i).Sublist (l.take j) := by
    have h2 : (l.take j).take i = l.take i := by
      rw [List.take_take, Nat.min_eq_left h]
    rw [← h2]
    exact List.take_sublist _ _
  exact hp.sum_le_sum (fun a _ => Nat.zero_le a)

/-- ceiling division used by `_expand_sample_size`: `-(-n / m)` is the ceiling and `(c-1)*m < n ≤ c*m`. -/
theorem ceil_div_bounds (n m : ℤ) (hm : 0 < m) : (-(-n / m) - 1) * m < n ∧ n ≤ (-(-n / m)) * m := by
  constructor
  · have h := Int.lt_ediv_add_one_mul_self (-n) hm
    nlinarith [Int.ediv_mul_le (-n) (ne_of_gt hm)]
  · have h := Int.ediv_mul_le (-n) (ne_of_gt hm)
    nlinarith

/-- folds of point-wise equal sequences of equal length are equal (C19 induction over Add / Mul of any arity; C01 / C08 `reduce(matmul)`). -/
theorem sum_congr_pointwise (f g : ℕ → ℝ) (n : ℕ) (h : ∀ i < n, f i = g i) :
    (Finset.range n).sum f = (Finset.range n).sum g :=
  Finset.sum_congr rfl (fun i hi => h i (Finset.mem_range.mp hi))
theorem prod_congr_pointwise (f g : ℕ → ℝ) (n : ℕ) (h : ∀ i < n, f i = g i) :
    (Finset.range n).prod f = (Finset.range n).prod g :=
  Finset.prod_congr rfl (fun i hi => h i (Finset.mem_range.mp hi))

/-- unfolding of a sum / product at its last element (the three instances asserted per fold in vfw/exmodel.py). -/
theorem sum_unfold (f : ℕ → ℝ) (n : ℕ) : (Finset.range (n + 1)).sum f = (Finset.range n).sum f + f n :=
  Finset.sum_range_succ f n
theorem prod_unfold (f : ℕ → ℝ) (n : ℕ) : (Finset.range (n + 1)).prod f = (Finset.range n).prod f * f n :=
  Finset.prod_range_succ f n

/-- division is multiplication by the inverse; `x ^ (-1) = x⁻¹`; subtraction of a negation (C19: div / sub special cases). -/
theorem div_as_mul_inv (a b : ℂ) : a / b = a * b⁻¹ := div_eq_mul_inv a b
theorem zpow_neg_one_rule (x : ℂ) : x ^ (-1 : ℤ) = x⁻¹ := zpow_neg_one x
theorem sub_neg_rule (a b : ℂ) : a - (-b) = a + b := sub_neg_eq_add a b

/-- the RBF kernel value depends only on the real distance of the two points, so rounding outcome codes to doubles keeps the kernel matrix a
    Gram matrix of the same kernel (C17 fix 164eb9f keeps non-negativity of the squared MMD). -/
theorem rbf_symm (x y g : ℝ) : Real.exp (-g * |x - y| ^ 2) = Real.exp (-g * |y - x| ^ 2) := by
  rw [abs_sub_comm]

/-- C17 constructor chain: a sum of non-negative reals is non-negative (side lemma of `TOTAL` in props/C17ctor.py), and scaling every value by
    `1 / total` makes the sum 1 ("same proportions" + this lemma = "normalised"). -/
theorem sum_nonneg_of_nonneg (f : ℕ → ℝ) (n : ℕ) (h : ∀ i < n, 0 ≤ f i) : 0 ≤ (Finset.range n).sum f :=
  Finset.sum_nonneg (fun i hi => h i (Finset.mem_range.mp hi))
theorem sum_scaled_eq_one (f : ℕ → ℝ) (n : ℕ) (h : (Finset.range n).sum f ≠ 0) :
    (Finset.range n).sum (fun i => f i * (1 / (Finset.range n).sum f)) = 1 := by
  rw [← Finset.sum_mul]
  field_simp

/-- C09 Kronecker chain: an identity block is the Kronecker product of identity blocks (so the identity-padded chain of `get_sparse_operator` is the
    per-qubit tensor-product definition), and kron is associative up to the canonical reindexing (`Matrix.kronecker_assoc`). -/
theorem identity_block_kron (m n : Type) [Fintype m] [Fintype n] [DecidableEq m] [DecidableEq n] :
    Matrix.kroneckerMap (· * ·) (1 : Matrix m m ℂ) (1 : Matrix n n ℂ) = 1 :=
  Matrix.one_kronecker_one

/-- C18 rule chaining: the ordered product of a concatenation of sequences is the ordered product of their products (non-commutative monoid of actions). -/
theorem prod_flatten_rule {M : Type} [Monoid M] (l : List (List M)) : l.flatten.prod = (l.map List.prod).prod :=
  List.prod_flatten

/- C07 induction step: the matrix algebra behind the re-association shortcuts of the gate wrappers (`props/C07struct.py`): adjoint twice, adjoint of an integer
    power and of an exponential, adjoint and integer power of a block-diagonal matrix (block-wise). -/
section C07
set_option linter.unusedSectionVars false
variable {n m : Type} [Fintype n] [DecidableEq n] [Fintype m] [DecidableEq m]
theorem adj_adj (M : Matrix n n ℂ) : M.conjTranspose.conjTranspose = M := Matrix.conjTranspose_conjTranspose M
theorem adj_pow (M : Matrix n n ℂ) (k : ℕ) : (M ^ k).conjTranspose = M.conjTranspose ^ k := Matrix.conjTranspose_pow M k
theorem adj_exp (M : Matrix n n ℂ) : (NormedSpace.exp M).conjTranspose = NormedSpace.exp M.conjTranspose := (Matrix.exp_conjTranspose M).symm
theorem adj_block (A : Matrix m m ℂ) (M : Matrix n n ℂ) :
    (Matrix.fromBlocks A 0 0 M).conjTranspose = Matrix.fromBlocks A.conjTranspose 0 0 M.conjTranspose := by
  rw [Matrix.fromBlocks_conjTranspose]; simp
theorem pow_block (A : Matrix m m ℂ) (M : Matrix n n ℂ) (k : ℕ) :
    (Matrix.fromBlocks A 0 0 M) ^ k = Matrix.fromBlocks (A ^ k) 0 0 (M ^ k) := by
  induction k with
  | zero => simp [Matrix.fromBlocks_one]
  | succ k ih => rw [pow_succ, ih, pow_succ, pow_succ, Matrix.fromBlocks_multiply]; simp
end C07

end VerifPrelude
